"""C05 — two-player Nash solvers and pure_nash_brute: correspondence + spec run."""
import itertools
from fractions import Fraction

import numpy as np

from .common import Case, fx, fxs, fxm, ints, intm, parse_rats, parse_ints, unfx

FILES = ["quantecon/game_theory/lemke_howson.py", "quantecon/game_theory/support_enumeration.py",
         "quantecon/game_theory/vertex_enumeration.py", "quantecon/game_theory/pure_nash.py",
         "quantecon/optimize/pivoting.py", "quantecon/util/combinatorics.py", "quantecon/util/numba.py"]

TOL = Fraction(1e-8)          # NormalFormGame / Player default `tol`
TOL_PIV = 1e-10            # documented constants of optimize/pivoting.py, PINNED here and in the model
TOL_RATIO_DIFF = 1e-15     # (QEModel.Pivot.tolPivF / tolRatioDiffF); never read from the library
ENV = Fraction(1, 10 ** 9)    # rounding envelope for probabilities (model Rat vs code double)
NEG = Fraction(1, 10 ** 12)   # a probability may be negative by rounding noise only
MAXIT = 10 ** 6


# ----------------------------------------------------------------------------
# exact oracle (Fractions; independent of the Lean model)

def F(v):
    return [Fraction(float(t)) for t in v]


def FM(a):
    return [[Fraction(float(t)) for t in row] for row in a]


def nash_defect(A, B, x, y):
    """exact check of a profile of doubles against the definition.
    A: m x n, B: n x m (own action first), Fractions. Returns None or a reason."""
    m, n = len(A), len(B)
    if len(x) != m or len(y) != n:
        return "wrong lengths %d,%d" % (len(x), len(y))
    for name, v in (("x", x), ("y", y)):
        if any(t < -NEG for t in v):   # below rounding noise
            return "%s has a negative entry %s" % (name, float(min(v)))
        if abs(sum(v) - 1) > ENV:
            return "%s sums to %r" % (name, float(sum(v)))
    Ay = [sum(A[i][j] * y[j] for j in range(n)) for i in range(m)]
    Bx = [sum(B[j][i] * x[i] for i in range(m)) for j in range(n)]
    u0 = sum(x[i] * Ay[i] for i in range(m))
    u1 = sum(y[j] * Bx[j] for j in range(n))
    if max(Ay) - u0 > TOL:
        return "player 0 can gain %.3e" % float(max(Ay) - u0)
    if max(Bx) - u1 > TOL:
        return "player 1 can gain %.3e" % float(max(Bx) - u1)
    return None


def solve_frac(S, b):
    """exact Gauss-Jordan on Fractions; None when singular"""
    k = len(S)
    Mx = [list(S[i]) + [b[i]] for i in range(k)]
    for c in range(k):
        p = next((r for r in range(c, k) if Mx[r][c] != 0), None)
        if p is None:
            return None
        Mx[c], Mx[p] = Mx[p], Mx[c]
        pv = Mx[c][c]
        Mx[c] = [t / pv for t in Mx[c]]
        for r in range(k):
            if r != c and Mx[r][c] != 0:
                f = Mx[r][c]
                Mx[r] = [a - f * t for a, t in zip(Mx[r], Mx[c])]
    return [Mx[i][k] for i in range(k)]


def all_equilibria_exact(A, B):
    """All Nash equilibria of a NON-DEGENERATE bimatrix game by the definition: for every pair of
    equal-size supports solve the two indifference systems exactly, keep the pair when the
    weights are positive and nothing outside the supports pays more. (In a non-degenerate game
    every equilibrium has equal-size supports and is the unique one with its supports.)
    Returns a list of (supp0, supp1, x, y) in Fractions."""
    m, n = len(A), len(B)
    out = []
    for k in range(1, min(m, n) + 1):
        for I in itertools.combinations(range(m), k):
            for J in itertools.combinations(range(n), k):
                # y on J making player 0 indifferent on I; x on I making player 1 indifferent on J
                S0 = [[A[i][j] for j in J] + [Fraction(-1)] for i in I] + [[Fraction(1)] * k + [Fraction(0)]]
                S1 = [[B[j][i] for i in I] + [Fraction(-1)] for j in J] + [[Fraction(1)] * k + [Fraction(0)]]
                rhs = [Fraction(0)] * k + [Fraction(1)]
                zy, zx = solve_frac(S0, rhs), solve_frac(S1, rhs)
                if zy is None or zx is None:
                    continue
                if any(t <= 0 for t in zy[:-1]) or any(t <= 0 for t in zx[:-1]):
                    continue
                if any(sum(A[i][j] * zy[t] for t, j in enumerate(J)) > zy[-1] for i in range(m) if i not in I):
                    continue
                if any(sum(B[j][i] * zx[t] for t, i in enumerate(I)) > zx[-1] for j in range(n) if j not in J):
                    continue
                x = [Fraction(0)] * m
                y = [Fraction(0)] * n
                for t, i in enumerate(I):
                    x[i] = zx[t]
                for t, j in enumerate(J):
                    y[j] = zy[t]
                out.append((I, J, x, y))
    return out


def supp(v):
    return tuple(i for i, t in enumerate(v) if t != 0)


def same_profile(p, q, env=Fraction(1, 10 ** 7)):
    return all(abs(a - b) <= env for a, b in zip(p[0] + p[1], q[0] + q[1]))


# ----------------------------------------------------------------------------
# generators

def gen_game(ctx, m, n, kind):
    """returns (A, B) as float arrays of shapes (m, n), (n, m)"""
    rng = ctx.rng
    if kind == "int":          # small integers: many ties, degenerate
        lo, hi = rng.choice([(-2, 2), (0, 3), (-3, 0), (-1, 1), (0, 1)])
        A = [[rng.randint(lo, hi) for _ in range(n)] for _ in range(m)]
        B = [[rng.randint(lo, hi) for _ in range(m)] for _ in range(n)]
    elif kind == "dup":        # duplicated / constant rows and columns, negative payoffs
        A = [[rng.randint(-4, 4) for _ in range(n)] for _ in range(m)]
        B = [[rng.randint(-4, 4) for _ in range(m)] for _ in range(n)]
        for Mx, r, c in ((A, m, n), (B, n, m)):
            t = rng.randrange(4)
            if t == 0 and r >= 2:
                i, j = rng.sample(range(r), 2)
                Mx[i] = list(Mx[j])
            elif t == 1:
                i = rng.randrange(r)
                Mx[i] = [rng.randint(-3, 0)] * c
            elif t == 2 and c >= 2:
                i, j = rng.sample(range(c), 2)
                for row in Mx:
                    row[i] = row[j]
            else:
                v = rng.randint(-3, 3)
                for row in Mx:
                    for k in range(c):
                        row[k] = v
    elif kind == "dyadic":     # generic-looking small dyadic payoffs
        A = [[rng.randint(-64, 64) / 16 for _ in range(n)] for _ in range(m)]
        B = [[rng.randint(-64, 64) / 16 for _ in range(m)] for _ in range(n)]
    elif kind == "generic":    # generic reals (non-degenerate with probability one)
        sc, sh = rng.choice([(1.0, 0.0), (1.0, 2.0), (3.0, -5.0), (0.5, 0.0)])
        A = [[rng.gauss(0, 1) * sc + sh for _ in range(n)] for _ in range(m)]
        B = [[rng.gauss(0, 1) * sc + sh for _ in range(m)] for _ in range(n)]
    elif kind == "zerosum":
        A = [[rng.gauss(0, 1) for _ in range(n)] for _ in range(m)]
        B = [[-A[i][j] for i in range(m)] for j in range(n)]
    elif kind == "coord":      # coordination-like: several equilibria
        A = [[rng.uniform(0, 1) + (3 if i == j else 0) for j in range(n)] for i in range(m)]
        B = [[rng.uniform(0, 1) + (3 if i == j else 0) for i in range(m)] for j in range(n)]
    else:
        raise ValueError(kind)
    return np.array(A, dtype=float), np.array(B, dtype=float)


def mk_game(A, B):
    from quantecon.game_theory import NormalFormGame, Player
    return NormalFormGame((Player(A), Player(B)))


# ----------------------------------------------------------------------------
# Lemke-Howson

def lh_cases(ctx, A, B, kind, cases, pivots, cappings, maxiters):
    from quantecon.game_theory import lemke_howson
    from quantecon.game_theory.lemke_howson import _lemke_howson_capping, _get_mixed_actions
    m, n = A.shape
    g = mk_game(A, B)
    FA, FB = FM(A), FM(B)
    for ip in pivots:
        for cap in cappings:
            for mi in maxiters:
                NE, res = lemke_howson(g, init_pivot=ip, max_iter=mi, capping=cap, full_output=True)
                # the same computation on arrays we can look into (bases are not returned by the API)
                tabs = (np.empty((n, m + n + 1)), np.empty((m, m + n + 1)))
                bases = (np.empty(n, dtype=int), np.empty(m, dtype=int))
                capi = mi if cap is None else cap
                conv, it, iu = _lemke_howson_capping(g.payoff_arrays, tabs, bases, ip, mi, capi)
                ne2 = _get_mixed_actions(tabs, bases)
                if (bool(conv), int(it), int(iu)) != (bool(res.converged), int(res.num_iter), int(res.init)) or \
                        fxs(ne2[0]) != fxs(NE[0]) or fxs(ne2[1]) != fxs(NE[1]):
                    ctx.notes.append("lemke_howson and its kernel disagree on a replayed call")
                    ctx.spec_fail("lh_api_vs_kernel", "lemke_howson(...) differs from _lemke_howson_capping on the same input",
                                  {"A": A.tolist(), "B": B.tolist(), "init_pivot": ip, "capping": cap, "max_iter": mi})
                ctx.count("lh:converged" if res.converged else "lh:not-converged")
                ctx.count("lh:num_iter>=%d" % (10 if res.num_iter >= 10 else 5 if res.num_iter >= 5 else 1))
                if cap is not None and res.init != ip:
                    ctx.count("lh:capping-moved-init")
                if res.converged:
                    why = nash_defect(FA, FB, F(NE[0]), F(NE[1]))
                    if why:
                        ctx.spec_fail("lemke_howson", "converged output is not a Nash equilibrium: " + why,
                                      {"A": A.tolist(), "B": B.tolist(), "init_pivot": ip, "capping": cap,
                                       "max_iter": mi, "NE": [NE[0].tolist(), NE[1].tolist()]})
                    if len(supp(NE[0])) >= 2:
                        ctx.count("lh:mixed-equilibrium")
                    if len(supp(NE[0])) != len(supp(NE[1])):
                        ctx.count("lh:unequal-supports")
                impl = "conv=%d iter=%d init=%d b0=%s b1=%s x=%s y=%s" % (
                    int(res.converged), res.num_iter, res.init, ints(bases[0]), ints(bases[1]), fxs(NE[0]), fxs(NE[1]))
                args = "m=%d n=%d A=%s B=%s init=%d maxiter=%d capping=%d tolpiv=%s toldiff=%s" % (
                    m, n, fxm(A), fxm(B), ip, mi, capi, fx(TOL_PIV), fx(TOL_RATIO_DIFF))
                nt = res.num_iter >= 3
                cases.append(Case("C05 lhf " + args, impl, nontrivial=nt, tag="lhf",
                                  cmp=lambda mo, im, _c=ctx: cmp_lh_float(_c, mo, im)))
                cases.append(Case("C05 lh " + args, impl, nontrivial=nt, tag="lh",
                                  cmp=lambda mo, im, _k=kind, _c=ctx: cmp_lh_rat(_c, _k, mo, im)))


def kvs(s):
    return dict(t.split("=", 1) for t in s.split(" "))


def cmp_lh_float(ctx, mo, im):
    """Float instance of the model vs the code: every field bit for bit (trace fidelity).
    `nf` / `ties` are the model's diagnostic counts of ratio tests that reported found=False (the
    code ignores the flag) and of ratio tests that entered the lexicographic tie-breaking loop."""
    head, diag = mo.rsplit(" nf=", 1)
    nf, ties = diag.split(" ties=")
    if nf != "0":
        ctx.count("lh:runs-with-a-ratio-test-reporting-not-found")
    if ties != "0":
        ctx.count("lh:runs-with-lexicographic-tie-breaking")
        ctx.count("lh:lexicographic-tie-breaks", int(ties))
    return None if head == im else "outputs differ"


def cmp_lh_rat(ctx, kind, mo, im):
    """exact model (Rat) vs the code: discrete parts equal, probabilities inside the envelope"""
    a, b = kvs(mo), kvs(im)
    for k in ("conv", "iter", "init", "b0", "b1"):
        if a[k] != b[k]:
            if a.get("ties", "0") != "0":
                # The exact run met a ratio tie (resolved lexicographically).  In doubles the tied ratios
                # differ by rounding noise above tol_ratio_diff=1e-15, so the code may legitimately follow the
                # other branch of the path; both end points are judged by the exact Nash oracle.  Counted,
                # not alarmed (same policy as C11).  [false alarm, seed 9: dyadic 2x3 game, x = 4e-15 vs 0]
                ctx.count("lh:rat-run-with-exact-tie-diverged-from-code")
                return None
            return "%s differs (model %s, code %s)" % (k, a[k], b[k])
    for k in ("x", "y"):
        va, vb = parse_rats(a[k]), parse_rats(b[k])
        if len(va) != len(vb):
            return k + " length differs"
        if b["conv"] == "1" and any(abs(p - q) > ENV for p, q in zip(va, vb)):
            return "%s outside the envelope 1e-9" % k
        # (supports are compared through the bases b0/b1 above: a degenerate basic variable is
        #  exactly 0 in the model and rounding noise in the code)
    return None


# ----------------------------------------------------------------------------
# support enumeration

def se_run(ctx, A, B, kind, cases):
    from quantecon.game_theory import support_enumeration
    m, n = A.shape
    g = mk_game(A, B)
    NEs = support_enumeration(g)
    FA, FB = FM(A), FM(B)
    seen = set()
    for x, y in NEs:
        why = nash_defect(FA, FB, F(x), F(y))
        if why:
            ctx.spec_fail("support_enumeration", "returned profile is not a Nash equilibrium: " + why,
                          {"A": A.tolist(), "B": B.tolist(), "NE": [x.tolist(), y.tolist()]})
        key = (supp(x), supp(y))
        if key in seen:
            ctx.spec_fail("support_enumeration_dup", "support pair %s returned twice" % (key,),
                          {"A": A.tolist(), "B": B.tolist()})
        seen.add(key)
        if len(key[0]) >= 3:
            ctx.count("se:support>=3")
    ctx.count("se:num-eq=%d" % min(len(NEs), 9))
    impl = "|".join("%s:%s:%s:%s" % (ints(supp(x)), ints(supp(y)), fxs(x), fxs(y)) for x, y in NEs) or "-"
    eps = "0" if kind in ("int", "dup") else "1/1000000000"
    cases.append(Case("C05 se m=%d n=%d A=%s B=%s eps=%s" % (m, n, fxm(A), fxm(B), eps), impl,
                      nontrivial=(min(m, n) >= 2), tag="se", cmp=lambda mo, im, _c=ctx: cmp_se(_c, mo, im)))
    return NEs


def parse_se(s):
    if s == "-":
        return []
    out = []
    for e in s.split("|"):
        s0, s1, x, y = e.split(":")
        out.append(((tuple(parse_ints(s0)), tuple(parse_ints(s1))), parse_rats(x), parse_rats(y)))
    return out


def cmp_se(ctx, mo, im):
    a = kvs(mo)
    frag = set()
    if a["frag"] != "-":
        for e in a["frag"].split("|"):
            s0, s1 = e.split(":")
            frag.add((tuple(parse_ints(s0)), tuple(parse_ints(s1))))
    mod = parse_se(a["ne"])
    cod = parse_se(im)
    ctx.count("se:pairs-enumerated", int(a["npairs"]))
    ctx.count("se:fragile-pairs", len(frag))
    # off the boundary set (singular system / zero weight / exact payoff tie, where rounding
    # decides) the yielded support pairs must coincide, in order
    ms = [e for e in mod if e[0] not in frag]
    cs = [e for e in cod if e[0] not in frag]
    ctx.count("se:code-yields-on-fragile-pairs", len(cod) - len(cs))
    ctx.count("se:model-yields-on-fragile-pairs", len(mod) - len(ms))
    if [e[0] for e in ms] != [e[0] for e in cs]:
        return "yielded support pairs differ off the boundary set: model %s code %s" % (
            [e[0] for e in ms], [e[0] for e in cs])
    for e, f in zip(ms, cs):
        if any(abs(p - q) > ENV for p, q in zip(e[1] + e[2], f[1] + f[2])):
            return "probabilities outside the envelope for supports %s" % (e[0],)
    return None


def indiff_cases(ctx, cases, count):
    """direct calls of `_indiff_mixed_action` on small-integer systems. Where LAPACK's solution
    is exactly the rational solution (dyadic, common here) the verdict is compared exactly —
    this ties the boundary semantics (`out[i] <= 0` rejects a zero weight, `payoff > val`
    accepts a tie), which the whole-game comparison has to leave to rounding."""
    from quantecon.game_theory.support_enumeration import _indiff_mixed_action
    from .common import ratm
    rng = ctx.rng
    for _ in range(count):
        mo, no = rng.randint(1, 4), rng.randint(1, 4)
        k = rng.randint(1, min(mo, no))
        own = sorted(rng.sample(range(mo), k))
        opp = sorted(rng.sample(range(no), k))
        lo, hi = rng.choice([(0, 1), (-1, 1), (0, 2), (-2, 2)])
        P = [[rng.randint(lo, hi) for _ in range(no)] for _ in range(mo)]
        if rng.random() < 0.5 and k >= 2:
            # plant a boundary: make one own row dominate weakly / equalise two columns partially
            i, j = rng.sample(range(k), 2)
            P[own[i]][opp[j]] = P[own[j]][opp[j]]
        Pa = np.array(P, dtype=float)
        Abuf = np.empty((k + 1, k + 1))
        flags = np.empty(mo, np.bool_)
        out = np.empty(k + 1)
        ok = bool(_indiff_mixed_action(Pa, np.array(own, dtype=np.int_), np.array(opp, dtype=np.int_), Abuf, flags, out))
        impl = "%d %s" % (int(ok), fxs(out))
        line = "C05 indiff mown=%d P=%s own=%s opp=%s" % (mo, ratm(P), ints(own), ints(opp))
        cases.append(Case(line, impl, nontrivial=(k >= 2), tag="indiff", cmp=lambda mo_, im, _c=ctx: cmp_indiff(_c, mo_, im)))


def cmp_indiff(ctx, mo, im):
    if mo == "sing":
        ctx.count("indiff:singular-exact-system")       # gesv's verdict on a singular matrix is rounding
        return None
    mb, mz = mo.split(" ")
    cb, cz = im.split(" ")
    z, zc = parse_rats(mz), parse_rats(cz)
    if z == zc:
        # LAPACK returned the exact solution: every later comparison is on the same numbers
        ctx.count("indiff:exact-solve")
        if any(t == 0 for t in z[:-1]):
            ctx.count("indiff:exact-zero-weight")
        if mb != cb:
            return "verdict differs on an exactly solved system (model %s, code %s)" % (mb, cb)
        ctx.count("indiff:verdict-%s" % cb)
        return None
    ctx.count("indiff:inexact-solve")
    if any(abs(a - b) > Fraction(1, 10 ** 6) for a, b in zip(z, zc)):
        return "solution of the indifference system differs"
    return None


# ----------------------------------------------------------------------------
# vertex enumeration

def ve_run(ctx, A, B, kind, cases):
    import scipy.spatial
    from quantecon.game_theory import vertex_enumeration
    from quantecon.game_theory.vertex_enumeration import _BestResponsePolytope
    m, n = A.shape
    g = mk_game(A, B)
    try:
        NEs = vertex_enumeration(g)
        brps = [_BestResponsePolytope(g.players[1 - i], idx=i) for i in range(2)]
    except scipy.spatial.QhullError:
        ctx.count("ve:QhullError")
        return None
    FA, FB = FM(A), FM(B)
    for x, y in NEs:
        why = nash_defect(FA, FB, F(x), F(y))
        if why:
            ctx.spec_fail("vertex_enumeration", "returned profile is not a Nash equilibrium: " + why,
                          {"A": A.tolist(), "B": B.tolist(), "NE": [x.tolist(), y.tolist()]})
    # the points handed to Qhull (shifts, scaling, translation of `_BestResponsePolytope.__init__`)
    for pl, P in enumerate((B, A)):
        impl_p = "%s %s" % (fx(brps[pl].trans_recip), fxm(brps[pl].hull.points))
        cases.append(Case("C05 brp idx=%d r=%d c=%d B=%s" % (pl, P.shape[0], P.shape[1], fxm(P)), impl_p,
                          nontrivial=True, tag="brp"))
        if (P.min(axis=0) < 0).any():
            ctx.count("brp:negative-column-shifted")
        if ((P.max(axis=0) == P.min(axis=0)) & (P.min(axis=0) <= 0)).any():
            ctx.count("brp:constant-nonpositive-column")
    check_qhull_assumption(ctx, A, B, brps, kind)
    ctx.count("ve:num-eq=%d" % min(len(NEs), 9))
    ctx.count("ve:vertices", brps[0].num_vertices + brps[1].num_vertices)
    impl = "|".join("%s:%s" % (fxs(x), fxs(y)) for x, y in NEs) or "-"
    line = "C05 vef m=%d n=%d lab0=%s lab1=%s eq0=%s eq1=%s t0=%s t1=%s" % (
        m, n, intm(brps[0].labelings), intm(brps[1].labelings), fxm(brps[0].equations), fxm(brps[1].equations),
        fx(brps[0].trans_recip), fx(brps[1].trans_recip))
    cases.append(Case(line, impl, nontrivial=True, tag="vef"))
    return NEs


def check_qhull_assumption(ctx, A, B, brps, kind=None):
    """The hypothesis of theorem `ve_sound` (Vertex0OK / Vertex1OK), evaluated on what Qhull
    actually delivered: raw coordinates non-negative, labelled inequalities binding, zero vector
    only for the zero labelling — in Fractions, inside a relative 1e-9. Qhull is outside the
    property (its output is an input of the model), so a miss is recorded, not a violation."""
    m, n = A.shape
    tol = Fraction(1, 10 ** 9)
    # hypothesis `hinj` of theorem `ve_complete`: no two vertices of a polytope carry the same
    # labelling (holds on non-degenerate games; counted per kind of game)
    for pl in range(2):
        masks = [frozenset(int(k) for k in lab) for lab in brps[pl].labelings]
        dup = len(masks) - len(set(masks))
        ctx.count("ve:qhull-repeated-labellings[%s]" % ("generic" if kind in ("generic", "zerosum", "coord") else "degenerate-kinds"), dup)
    for pl, (P, own, cnt_other) in enumerate(((B, m, n), (A, n, m))):
        # P = opponent's payoff array, rows = opponent's actions, columns = own actions
        col_mins, col_maxs = P.min(axis=0), P.max(axis=0)
        shifts = np.zeros(own)
        shifts[col_mins < 0] = -col_mins[col_mins < 0]
        shifts[(col_maxs == col_mins) * (col_mins <= 0)] += 1
        Ps = FM(P + shifts)
        t = Fraction(float(brps[pl].trans_recip))
        own_start, pay_start = (0, m) if pl == 0 else (m, 0)
        zero_lab = set(range(own_start, own_start + own))
        for eq, lab in zip(brps[pl].equations, brps[pl].labelings):
            e = F(eq)
            raw = [e[i] * t - e[own] for i in range(own)]
            scale = max([abs(e[i] * t) for i in range(own)] + [abs(e[own])])   # size of the terms subtracted
            pay = [sum(Ps[j][i] * raw[i] for i in range(own)) for j in range(cnt_other)]
            c = max(pay)
            ok = all(v >= -tol * scale for v in raw)
            for k in lab:
                k = int(k)
                if own_start <= k < own_start + own:
                    ok = ok and abs(raw[k - own_start]) <= tol * scale
                else:
                    ok = ok and abs(pay[k - pay_start] - c) <= tol * max(abs(c), scale)
            if set(int(k) for k in lab) != zero_lab:
                ok = ok and sum(raw) > tol * scale
            ctx.count("ve:qhull-vertex-assumption-%s" % ("holds" if ok else "MISSED"))
            if not ok and "qhull-miss" not in ctx.extra:
                ctx.extra["qhull-miss"] = {"A": A.tolist(), "B": B.tolist(), "polytope": pl, "labels": [int(k) for k in lab]}


def brp_args_cases(ctx, cases):
    """malformed inputs of `_BestResponsePolytope`: not a Player / a Player of a game that is not a
    two-player game"""
    from quantecon.game_theory import Player
    from quantecon.game_theory.vertex_enumeration import _BestResponsePolytope

    def call(x):
        try:
            _BestResponsePolytope(x, idx=0)
            return "ok"
        except (TypeError, NotImplementedError) as e:
            return "ERR:" + type(e).__name__
    for obj, has, nopp in ((3, 0, 0), ("abc", 0, 0), (None, 0, 0), (np.zeros((2, 2)), 0, 0),
                           (Player(np.zeros(3)), 1, 0), (Player(np.zeros((2, 2, 2))), 1, 2),
                           (Player(np.zeros((2, 3, 2, 2))), 1, 3), (Player(np.array([[1., 2.], [3., 0.]])), 1, 1)):
        out = call(obj)
        ctx.count("brpargs:" + out)
        cases.append(Case("C05 brpargs has=%d nopp=%d" % (has, nopp), out, nontrivial=False, tag="brpargs"))


def cross_check(ctx, A, B, se, ve):
    """non-degenerate game: support and vertex enumeration return the same set, each element
    once, and the number is odd"""
    P = [(F(x), F(y)) for x, y in se]
    Q = [(F(x), F(y)) for x, y in ve]
    rep = {"A": A.tolist(), "B": B.tolist(), "support_enumeration": [[x.tolist(), y.tolist()] for x, y in se],
           "vertex_enumeration": [[x.tolist(), y.tolist()] for x, y in ve]}
    for name, L in (("support_enumeration", P), ("vertex_enumeration", Q)):
        for i in range(len(L)):
            for j in range(i):
                if same_profile(L[i], L[j]):
                    ctx.spec_fail(name + "_twice", name + " returned an equilibrium twice on a generic game", rep)
        if len(L) % 2 == 0:
            ctx.spec_fail(name + "_parity", "%s returned %d equilibria (even) on a generic game" % (name, len(L)), rep)
    for p in P:
        if not any(same_profile(p, q) for q in Q):
            ctx.spec_fail("ve_missing", "vertex_enumeration misses an equilibrium found by support_enumeration", rep)
    for q in Q:
        if not any(same_profile(p, q) for p in P):
            ctx.spec_fail("se_missing", "support_enumeration misses an equilibrium found by vertex_enumeration", rep)
    ctx.count("cross:generic-games")
    if len(P) >= 3:
        ctx.count("cross:>=3-equilibria")
    # independent completeness oracle: every equilibrium, computed from the definition in Fractions
    m, n = A.shape
    if ctx.thorough or m * n <= 12:
        ref = all_equilibria_exact(FM(A), FM(B))
        ctx.count("cross:exact-enumeration")
        for name, L in (("support_enumeration", P), ("vertex_enumeration", Q)):
            for (I, J, x, y) in ref:
                if not any(same_profile((x, y), q) for q in L):
                    ctx.spec_fail(name + "_incomplete", "%s misses the equilibrium with supports %s, %s of a generic game"
                                  % (name, I, J), dict(rep, missing=[[float(t) for t in x], [float(t) for t in y]]))
            if len(L) != len(ref):
                ctx.spec_fail(name + "_count", "%s returned %d profiles, the game has exactly %d equilibria"
                              % (name, len(L), len(ref)), rep)


# ----------------------------------------------------------------------------
# pure_nash_brute

def pn_run(ctx, cases, N, nums, kind, tol):
    from quantecon.game_theory import NormalFormGame, Player, pure_nash_brute
    rng = ctx.rng
    arrs = []
    for i in range(N):
        shape = tuple(nums[i:] + nums[:i])
        size = int(np.prod(shape))
        if kind == "int":
            vals = [float(rng.randint(-2, 2)) for _ in range(size)]
        elif kind == "half":
            vals = [rng.randint(-4, 4) / 2 for _ in range(size)]
        else:
            vals = [rng.gauss(0, 1) for _ in range(size)]
        arrs.append(np.array(vals, dtype=float).reshape(shape))
    g = NormalFormGame(tuple(Player(a) for a in arrs))
    got = pure_nash_brute(g, tol=tol)
    tolv = 1e-8 if tol is None else tol
    # exact oracle: a profile must be returned when no deviation gains more than tol - d,
    # and must not be when some deviation gains more than tol + d (d: rounding of `max - tol`)
    d = Fraction(1, 10 ** 12)
    ft = Fraction(tolv)
    gotset = set(tuple(int(t) for t in a) for a in got)
    if len(gotset) != len(got):
        ctx.spec_fail("pure_nash_dup", "a profile is returned twice", {"nums": nums, "pay": [a.tolist() for a in arrs]})
    for a in itertools.product(*[range(k) for k in nums]):
        gain = Fraction(0)
        for i in range(N):
            idx_rest = tuple(a[i + 1:]) + tuple(a[:i])
            own = [Fraction(float(arrs[i][(b,) + idx_rest])) for b in range(nums[i])]
            gain = max(gain, max(own) - own[a[i]])
        if gain <= ft - d and a not in gotset:
            ctx.spec_fail("pure_nash_missing", "pure equilibrium %s not returned (max gain %s)" % (a, float(gain)),
                          {"nums": nums, "pay": [x.tolist() for x in arrs], "tol": tol, "got": sorted(gotset)})
        if gain > ft + d and a in gotset:
            ctx.spec_fail("pure_nash_extra", "%s returned but a deviation gains %s > tol" % (a, float(gain)),
                          {"nums": nums, "pay": [x.tolist() for x in arrs], "tol": tol, "got": sorted(gotset)})
        if 0 < gain <= ft:
            ctx.count("pn:within-tol-only")
    ctx.count("pn:N=%d" % N)
    ctx.count("pn:num-eq=%d" % min(len(got), 5))
    impl = intm(got)
    line = "C05 pnf nums=%s pay=%s tol=%s" % (ints(nums), fxm([a.ravel() for a in arrs]), fx(tolv))
    cases.append(Case(line, impl, nontrivial=(N >= 2 and max(nums) >= 2), tag="pnf"))
    cases.append(Case(line.replace("C05 pnf", "C05 pn"), impl, nontrivial=(N >= 2 and max(nums) >= 2), tag="pn"))


def library_tolerances():
    """the tolerances the library ACTUALLY uses: module constants and the default arguments of
    `_lex_min_ratio_test` (through which lemke_howson gets them)"""
    import inspect
    from quantecon.optimize import pivoting
    f = getattr(pivoting._lex_min_ratio_test, "py_func", pivoting._lex_min_ratio_test)
    sig = inspect.signature(f)
    return (float(pivoting.TOL_PIV), float(pivoting.TOL_RATIO_DIFF),
            float(sig.parameters["tol_piv"].default), float(sig.parameters["tol_ratio_diff"].default))


def degenerate_run(ctx, cases, count):
    """highly degenerate games: 4x4, 4x5, 5x4, 5x5 with payoffs in {0,1,2} or {0,1}, often with a
    duplicated row / column; every initial pivot x capping in {None,1,2,10}; every converged run is
    judged by the exact Nash oracle and compared bit for bit with the Float model run at the
    DOCUMENTED tolerances (a changed default tolerance shows here)."""
    from quantecon.game_theory import lemke_howson
    rng = ctx.rng
    tp, td, dtp, dtd = library_tolerances()
    changed = (tp, td, dtp, dtd) != (TOL_PIV, TOL_RATIO_DIFF, TOL_PIV, TOL_RATIO_DIFF)
    cases.append(Case("C05 tols", "%s %s" % (fx(dtp), fx(dtd)), nontrivial=False, tag="tols"))
    if (tp, td) != (dtp, dtd):
        ctx.notes.append("pivoting.TOL_PIV/TOL_RATIO_DIFF differ from the defaults of _lex_min_ratio_test")
    for h in range(count):
        m, n = rng.choice([(4, 4), (4, 5), (5, 4), (5, 5), (5, 5)])
        hi = rng.choice([2, 2, 1])
        A = [[float(rng.randint(0, hi)) for _ in range(n)] for _ in range(m)]
        B = [[float(rng.randint(0, hi)) for _ in range(m)] for _ in range(n)]
        if rng.random() < 0.3:
            i, j = rng.sample(range(m), 2); A[i] = list(A[j])
        if rng.random() < 0.3:
            i, j = rng.sample(range(n), 2); B[i] = list(B[j])
        A, B = np.array(A), np.array(B)
        g = mk_game(A, B)
        FA, FB = FM(A), FM(B)
        ctx.count("degen:games")
        for ip in range(m + n):
            for cap in (None, 1, 2, 10):
                NE, res = lemke_howson(g, init_pivot=ip, capping=cap, max_iter=500, full_output=True)
                ctx.count("degen:lh-calls")
                if res.converged:
                    why = nash_defect(FA, FB, F(NE[0]), F(NE[1]))
                    if why:
                        ctx.spec_fail("pivot_tolerance_default_changed" if changed else "lemke_howson",
                                      "converged output on a degenerate integer game is not a Nash equilibrium: " + why
                                      + (" (library tolerances tol_piv=%r tol_ratio_diff=%r, documented 1e-10 / 1e-15)"
                                         % (dtp, dtd) if changed else ""),
                                      {"A": A.tolist(), "B": B.tolist(), "init_pivot": ip, "capping": cap, "max_iter": 500,
                                       "NE": [NE[0].tolist(), NE[1].tolist()]})
                impl = "conv=%d iter=%d init=%d x=%s y=%s" % (int(res.converged), res.num_iter, res.init, fxs(NE[0]), fxs(NE[1]))
                args = "m=%d n=%d A=%s B=%s init=%d maxiter=500 capping=%d tolpiv=%s toldiff=%s" % (
                    m, n, fxm(A), fxm(B), ip, 500 if cap is None else cap, fx(TOL_PIV), fx(TOL_RATIO_DIFF))
                cases.append(Case("C05 lhf " + args, impl, nontrivial=res.num_iter >= 3, tag="lhf-degenerate",
                                  cmp=lambda mo, im, _c=ctx: cmp_lh_degen(_c, mo, im)))


def cmp_lh_degen(ctx, mo, im):
    a, b = kvs(mo), kvs(im)
    if a["ties"] != "0":
        ctx.count("degen:runs-with-lexicographic-tie-breaking")
    for k in ("conv", "iter", "init", "x", "y"):
        if a[k] != b[k]:
            return "%s differs between the code and the model at the documented tolerances 1e-10 / 1e-15" % k
    return None


# ----------------------------------------------------------------------------
# histories on ONE game object: solve / change payoffs / solve again

def bits(v):
    return np.ascontiguousarray(np.asarray(v, dtype=float)).tobytes()


class Ledger:
    """every array ever returned by a solver in one history: kept alive, with its bits at return
    time; re-judged after every later call (must be bitwise unchanged), and checked for shared
    memory with the game's own arrays and with every earlier returned array"""

    def __init__(self):
        self.items = []     # (array, bits at return, label)

    def add(self, ctx, arrays, label, owners, rep):
        for a in arrays:
            a = np.asarray(a)
            for o in owners:
                if np.shares_memory(a, o):
                    ctx.spec_fail("alias_result_vs_game", "%s returned an array that shares memory with the game's "
                                  "payoff arrays" % label, rep)
            for (b, _, lb) in self.items[-60:]:
                if b is not a and np.shares_memory(a, b):
                    ctx.spec_fail("alias_result_vs_earlier_result", "%s returned an array that shares memory with an "
                                  "array returned earlier by %s" % (label, lb), rep)
            self.items.append((a, a.tobytes(), label))
        ctx.count("ledger:arrays-kept", len(arrays))

    def verify(self, ctx, after, rep):
        for (a, b0, label) in self.items:
            if a.tobytes() != b0:
                ctx.spec_fail("history_earlier_result_changed", "a result returned earlier by %s was modified by a "
                              "later call (%s)" % (label, after), rep)
                return


def solve_all(ctx, g, hist, generic, tag, ledger=None):
    """Run the four solvers on the game object `g` as it is NOW. Everything is judged against the
    payoffs read fresh from the object: exact Nash oracle, agreement with a freshly built game
    with the same payoffs (solvers are functions of the payoffs only), solve twice = same,
    stored payoffs untouched."""
    from quantecon.game_theory import (lemke_howson, support_enumeration, vertex_enumeration,
                                       pure_nash_brute)
    A = g.players[0].payoff_array.copy()
    B = g.players[1].payoff_array.copy()
    m, n = A.shape
    FA, FB = FM(A), FM(B)
    fresh = mk_game(A.copy(), B.copy())
    rep = {"history": hist, "A_now": A.tolist(), "B_now": B.tolist(), "at": tag}
    snap = (bits(A), bits(B))

    def untouched(what):
        if (bits(g.players[0].payoff_array), bits(g.players[1].payoff_array)) != snap:
            ctx.spec_fail("history_payoffs_modified", "%s changed the stored payoffs" % what, rep)

    def prof_bits(L):
        return [(bits(x), bits(y)) for x, y in L]

    if ledger is None:
        ledger = Ledger()
    owners = [g.players[0].payoff_array, g.players[1].payoff_array]

    def keep(L, label):
        ledger.add(ctx, [a for xy in L for a in xy], label, owners, rep)
        ledger.verify(ctx, label, rep)

    def judge(name, L, complete_ok=True):
        for x, y in L:
            why = nash_defect(FA, FB, F(x), F(y))
            if why:
                ctx.spec_fail("history_" + name, "%s on a game whose payoffs were changed in place returned a "
                              "profile that is not an equilibrium of the CURRENT game: %s" % (name, why),
                              dict(rep, NE=[np.asarray(x).tolist(), np.asarray(y).tolist()]))

    # support / vertex enumeration
    se1 = support_enumeration(g); untouched("support_enumeration")
    se2 = support_enumeration(g)
    sef = support_enumeration(fresh)
    keep(se1, "support_enumeration"); keep(se2, "support_enumeration")
    judge("support_enumeration", se1)
    if prof_bits(se1) != prof_bits(se2) or prof_bits(se1) != prof_bits(sef):
        ctx.spec_fail("history_support_enumeration_state", "support_enumeration depends on the object's history "
                      "(differs from a second call / from a freshly built game with the same payoffs)", rep)
    ve1 = None
    if m >= 2 and n >= 2:
        import scipy.spatial
        try:
            ve1 = vertex_enumeration(g); untouched("vertex_enumeration")
            ve2 = vertex_enumeration(g)
            vef = vertex_enumeration(fresh)
            keep(ve1, "vertex_enumeration"); keep(ve2, "vertex_enumeration")
            judge("vertex_enumeration", ve1)
            if prof_bits(ve1) != prof_bits(ve2) or prof_bits(ve1) != prof_bits(vef):
                ctx.spec_fail("history_vertex_enumeration_state", "vertex_enumeration depends on the object's "
                              "history (differs from a second call / from a freshly built game with the same "
                              "payoffs): %d vs %d vs %d profiles" % (len(ve1), len(ve2), len(vef)), rep)
        except scipy.spatial.QhullError:
            ctx.count("hist:QhullError")
            ve1 = None
    if generic and ve1 is not None:
        cross_check(ctx, A, B, se1, ve1)
    # Lemke-Howson
    for ip in sorted(set([0, m + n - 1, ctx.rng.randrange(m + n)])):
        for cap in (None, 2):
            NE, res = lemke_howson(g, init_pivot=ip, capping=cap, max_iter=500, full_output=True)
            untouched("lemke_howson")
            NEf, resf = lemke_howson(fresh, init_pivot=ip, capping=cap, max_iter=500, full_output=True)
            keep([NE], "lemke_howson")
            if not (res.NE[0] is NE[0] or bits(res.NE[0]) == bits(NE[0])):
                ctx.spec_fail("lemke_howson_result_object", "NashResult.NE differs from the returned NE", rep)
            if res.converged:
                judge("lemke_howson", [NE])
            if prof_bits([NE]) != prof_bits([NEf]) or (res.converged, res.num_iter, res.init) != \
                    (resf.converged, resf.num_iter, resf.init):
                ctx.spec_fail("history_lemke_howson_state", "lemke_howson depends on the object's history", rep)
    # pure equilibria
    got = pure_nash_brute(g); untouched("pure_nash_brute")
    gotf = pure_nash_brute(fresh)
    ledger.verify(ctx, "pure_nash_brute", rep)
    if got != gotf or got != pure_nash_brute(g):
        ctx.spec_fail("history_pure_nash_state", "pure_nash_brute depends on the object's history", rep)
    d, ft = Fraction(1, 10 ** 12), Fraction(1e-8)
    gs = set(tuple(int(t) for t in a) for a in got)
    for i in range(m):
        for j in range(n):
            gain = max(max(FA[k][j] for k in range(m)) - FA[i][j], max(FB[k][i] for k in range(n)) - FB[j][i])
            if (gain <= ft - d and (i, j) not in gs) or (gain > ft + d and (i, j) in gs):
                ctx.spec_fail("history_pure_nash", "pure_nash_brute wrong for the CURRENT payoffs at %s" % ((i, j),),
                              dict(rep, got=sorted(gs)))
    ctx.count("hist:solves")


def history_run(ctx, count):
    from quantecon.game_theory import NormalFormGame
    rng = ctx.rng
    for h in range(count):
        generic = rng.random() < 0.6
        val = (lambda: rng.gauss(0, 1)) if generic else (lambda: float(rng.randint(-2, 3)))
        m, n = rng.randint(2, 4), rng.randint(2, 4)
        hist = []
        ledger = Ledger()
        how = "stengel" if h == 0 else rng.choice(["arrays", "staged", "delete", "stengel"])
        if how == "stengel":
            m, n, generic = 3, 2, False
            A0 = np.array([[3., 3.], [2., 5.], [0., 6.]])
            B0 = np.array([[3., 2., 3.], [2., 6., 1.]])
            g = mk_game(A0, B0)
            hist.append(["arrays", A0.tolist(), B0.tolist()])
        elif how == "arrays":
            A0 = np.array([[val() for _ in range(n)] for _ in range(m)])
            B0 = np.array([[val() for _ in range(m)] for _ in range(n)])
            g = mk_game(A0, B0)
            hist.append(["arrays", A0.tolist(), B0.tolist()])
        elif how == "staged":
            # a game created from the numbers of actions (all payoffs 0), filled in two stages
            g = NormalFormGame((m, n))
            hist.append(["shape", m, n])
            cells = [(i, j) for i in range(m) for j in range(n)]
            rng.shuffle(cells)
            half = len(cells) // 2
            for (i, j) in cells[:half]:
                v = (val(), val())
                g[i, j] = v
                hist.append(["setitem", i, j, v[0], v[1]])
            solve_all(ctx, g, list(hist), False, "half-filled", ledger)
            for (i, j) in cells[half:]:
                v = (val(), val())
                g[i, j] = v
                hist.append(["setitem", i, j, v[0], v[1]])
        else:
            # the result of delete_action on a solved, larger game; the parent must keep its answers
            from quantecon.game_theory import support_enumeration
            A0 = np.array([[val() for _ in range(n + 1)] for _ in range(m + 1)])
            B0 = np.array([[val() for _ in range(m + 1)] for _ in range(n + 1)])
            parent = mk_game(A0, B0)
            hist.append(["arrays", A0.tolist(), B0.tolist()])
            solve_all(ctx, parent, list(hist), generic, "parent", ledger)
            before = [(bits(x), bits(y)) for x, y in support_enumeration(parent)]
            a0, a1 = rng.randrange(m + 1), rng.randrange(n + 1)
            g = parent.delete_action(0, a0).delete_action(1, a1)
            hist.append(["delete_action", 0, a0, 1, a1])
            solve_all(ctx, g, list(hist), generic, "child", ledger)
            if [(bits(x), bits(y)) for x, y in support_enumeration(parent)] != before or \
                    bits(parent.players[0].payoff_array) != bits(A0):
                ctx.spec_fail("history_delete_action_parent", "delete_action / solving the child changed the parent",
                              {"history": hist})
        ctx.count("hist:" + how)
        solve_all(ctx, g, list(hist), generic and how != "stengel", "built", ledger)
        for step in range(rng.randint(1, 3)):
            kind = rng.choice(["setitem", "inplace0", "inplace1", "setitem-many"]) if how != "stengel" or step else "setitem"
            if how == "stengel" and step == 0:
                g[0, 0] = (1.0, 3.0)
                hist.append(["setitem", 0, 0, 1.0, 3.0])
            elif kind == "setitem":
                i, j = rng.randrange(m), rng.randrange(n)
                v = (val(), val())
                g[i, j] = v
                hist.append(["setitem", i, j, v[0], v[1]])
            elif kind == "setitem-many":
                for _ in range(rng.randint(2, m * n)):
                    i, j = rng.randrange(m), rng.randrange(n)
                    v = (val(), val())
                    g[i, j] = v
                    hist.append(["setitem", i, j, v[0], v[1]])
            elif kind == "inplace0":
                i, j = rng.randrange(m), rng.randrange(n)
                v = val()
                g.players[0].payoff_array[i, j] = v
                hist.append(["players[0].payoff_array", i, j, v])
            else:
                i, j = rng.randrange(m), rng.randrange(n)
                v = val()
                g.players[1].payoff_array[j, i] = v
                hist.append(["players[1].payoff_array", j, i, v])
            ctx.count("hist:mutation:" + kind)
            solve_all(ctx, g, list(hist), generic and how != "stengel", "after-mutation-%d" % (step + 1), ledger)


def interleave_run(ctx, count):
    """the generator versions, consumed alternately for two different games in one process, give
    what the list versions give (no buffer shared between live generators)"""
    from quantecon.game_theory import (support_enumeration, vertex_enumeration, pure_nash_brute)
    from quantecon.game_theory.support_enumeration import support_enumeration_gen
    from quantecon.game_theory.vertex_enumeration import vertex_enumeration_gen
    from quantecon.game_theory.pure_nash import pure_nash_brute_gen
    rng = ctx.rng
    for _ in range(count):
        games = []
        for _g in range(2):
            m, n = rng.randint(2, 4), rng.randint(2, 4)
            A = np.array([[float(rng.randint(-3, 3)) + (rng.random() if _g else 0) for _ in range(n)] for _ in range(m)])
            B = np.array([[float(rng.randint(-3, 3)) + (rng.random() if _g else 0) for _ in range(m)] for _ in range(n)])
            games.append(mk_game(A, B))
        rep = {"games": [[g.players[0].payoff_array.tolist(), g.players[1].payoff_array.tolist()] for g in games]}
        for name, lst, gen, conv in (
                ("support_enumeration", support_enumeration, support_enumeration_gen, lambda L: [(bits(x), bits(y)) for x, y in L]),
                ("vertex_enumeration", vertex_enumeration, vertex_enumeration_gen, lambda L: [(bits(x), bits(y)) for x, y in L]),
                ("pure_nash_brute", pure_nash_brute, pure_nash_brute_gen, lambda L: [tuple(int(t) for t in a) for a in L])):
            try:
                want = [conv(lst(g)) for g in games]
                its = [gen(g) for g in games]
                got = [[], []]
                live = [True, True]
                while any(live):
                    for k in (0, 1):
                        if live[k]:
                            try:
                                got[k].append(next(its[k]))
                            except StopIteration:
                                live[k] = False
                got = [conv(L) for L in got]
            except Exception as e:   # Qhull on a degenerate game
                if type(e).__name__ == "QhullError":
                    ctx.count("interleave:QhullError")
                    continue
                raise
            if got != want:
                ctx.spec_fail("interleaved_generators_" + name, "%s_gen consumed alternately for two games differs "
                              "from the list version" % name, rep)
            ctx.count("interleave:" + name)


INT_TYPES = [int, np.int8, np.int16, np.int32, np.int64, np.uint8, np.uint16, np.uint32, np.uint64, np.intp, bool]


def forms_run(ctx):
    """ARGUMENT FORMS: the same game / the same scalars handed over in every accepted form must give
    bit-identical answers (and the exact oracle must accept them)."""
    from quantecon.game_theory import (NormalFormGame, Player, lemke_howson, support_enumeration,
                                       vertex_enumeration, pure_nash_brute)
    import scipy.spatial
    rng = ctx.rng

    def results(g, m, n):
        out = {"se": [(bits(x), bits(y)) for x, y in support_enumeration(g)],
               "pn": pure_nash_brute(g), "pn0": pure_nash_brute(g, tol=0.0)}
        if m >= 2 and n >= 2:
            try:
                out["ve"] = [(bits(x), bits(y)) for x, y in vertex_enumeration(g)]
            except scipy.spatial.QhullError:
                out["ve"] = "QhullError"
        for ip in (0, m + n - 1):
            for cap in (None, 2):
                NE, res = lemke_howson(g, init_pivot=ip, capping=cap, max_iter=500, full_output=True)
                out["lh", ip, cap] = (bits(NE[0]), bits(NE[1]), bool(res.converged), int(res.num_iter), int(res.init))
        return out

    shapes = [(3, 2), (1, 3), (3, 1), (1, 1), (2, 2), (4, 3)]
    if not ctx.thorough:
        shapes = shapes[:4] + [rng.choice(shapes[4:])]
    for (m, n) in shapes:
        # integer-valued payoffs: exact in every dtype
        A = np.array([[float(rng.randint(-3, 4)) for _ in range(n)] for _ in range(m)])
        B = np.array([[float(rng.randint(-3, 4)) for _ in range(m)] for _ in range(n)])
        if (m, n) == (3, 2):
            A = np.array([[3., 3.], [2., 5.], [0., 6.]]); B = np.array([[3., 2., 3.], [2., 6., 1.]])
        rep0 = {"A": A.tolist(), "B": B.tolist()}
        canon = mk_game(A.copy(), B.copy())
        want = results(canon, m, n)
        FA, FB = FM(A), FM(B)
        for x, y in support_enumeration(canon):
            why = nash_defect(FA, FB, F(x), F(y))
            if why:
                ctx.spec_fail("support_enumeration", "not Nash: " + why, rep0)

        def pad(X):
            big = np.zeros((2 * X.shape[0] + 1, 3 * X.shape[1] + 2))
            big[1::2, 2::3] = X
            return big[1::2, 2::3]
        bim = [[(A[i, j], B[j, i]) for j in range(n)] for i in range(m)]
        arr3 = np.array(bim, dtype=float)
        variants = {
            "Player(list)": lambda: NormalFormGame((Player(A.tolist()), Player(B.tolist()))),
            "Player(tuple)": lambda: NormalFormGame((Player(tuple(map(tuple, A.tolist()))), Player(tuple(map(tuple, B.tolist()))))),
            "Player(int64)": lambda: NormalFormGame((Player(A.astype(np.int64)), Player(B.astype(np.int64)))),
            "Player(int32)": lambda: NormalFormGame((Player(A.astype(np.int32)), Player(B.astype(np.int32)))),
            "Player(float32)": lambda: NormalFormGame((Player(A.astype(np.float32)), Player(B.astype(np.float32)))),
            "Player(F-order)": lambda: NormalFormGame((Player(np.asfortranarray(A)), Player(np.asfortranarray(B)))),
            "Player(strided view)": lambda: NormalFormGame((Player(pad(A)), Player(pad(B)))),
            "Player(reversed view)": lambda: NormalFormGame((Player(A[::-1, ::-1].copy()[::-1, ::-1]), Player(B[::-1, ::-1].copy()[::-1, ::-1]))),
            "Player(transposed view)": lambda: NormalFormGame((Player(A.T.copy().T), Player(B.T.copy().T))),
            "list of Players": lambda: NormalFormGame([Player(A.copy()), Player(B.copy())]),
            "bimatrix nested lists": lambda: NormalFormGame(bim),
            "ndarray (m,n,2) C": lambda: NormalFormGame(arr3.copy()),
            "ndarray (m,n,2) F": lambda: NormalFormGame(np.asfortranarray(arr3)),
            "ndarray (m,n,2) int": lambda: NormalFormGame(arr3.astype(np.int64)),
            "ndarray (m,n,2) float32": lambda: NormalFormGame(arr3.astype(np.float32)),
            "ndarray (m,n,2) strided": lambda: NormalFormGame(np.repeat(arr3, 2, axis=1)[:, ::2, :]),
        }
        if not ctx.thorough:
            keep = ["Player(list)", "Player(int64)", "Player(float32)", "Player(F-order)", "Player(strided view)",
                    "Player(transposed view)", "bimatrix nested lists", "ndarray (m,n,2) F", "ndarray (m,n,2) strided"]
            if (m, n) != (3, 2):
                keep = rng.sample(keep, 4)
            variants = {k: variants[k] for k in keep}
        for name, build in variants.items():
            gv = build()
            inputs = (bits(A), bits(B))
            got = results(gv, m, n)
            ctx.count("forms:game-variant")
            if got != want:
                diff = [k for k in want if got.get(k) != want[k]]
                ctx.spec_fail("argument_form_game", "game built as %s gives different answers than the same payoffs as "
                              "C-ordered float64 arrays, in %s" % (name, diff), dict(rep0, form=name))
            if (bits(A), bits(B)) != inputs:
                ctx.spec_fail("argument_form_input_modified", "inputs modified for form " + name, dict(rep0, form=name))

        # scalars of lemke_howson
        base = dict(init_pivot=min(1, m + n - 1), max_iter=100, capping=2)
        NE0, res0 = lemke_howson(canon, full_output=True, **base)
        ref = (bits(NE0[0]), bits(NE0[1]), bool(res0.converged), int(res0.num_iter), int(res0.init))
        # (every distinct triple of scalar types is one more Numba specialisation: the quick tier uses a
        #  fixed small set so that the on-disk cache stays warm; the thorough tier uses all of them)
        if ctx.thorough:
            combos = [(T, arg) for T in INT_TYPES for arg in ("init_pivot", "max_iter", "capping")]
        elif (m, n) == (3, 2):
            combos = [(np.int32, "init_pivot"), (np.uint8, "init_pivot"), (np.uint64, "init_pivot"), (bool, "init_pivot"),
                      (np.intp, "init_pivot"), (np.int32, "max_iter"), (np.uint8, "capping")]
        else:
            combos = [(np.int32, "init_pivot"), (np.uint64, "init_pivot"), (np.uint8, "capping")]
        for (T, arg) in combos:
            if True:
                kw = dict(base)
                if T is bool and arg != "init_pivot":
                    continue        # True == 1 is a different, legal value of max_iter / capping
                kw[arg] = T(kw[arg])
                ctx.count("forms:lh-scalar")
                try:
                    NE, res = lemke_howson(canon, full_output=True, **kw)
                    got = (bits(NE[0]), bits(NE[1]), bool(res.converged), int(res.num_iter), int(res.init))
                except Exception as e:
                    got = "ERR:" + type(e).__name__
                if got != ref:
                    key = "lemke_howson_%s_as_%s" % (arg, T.__name__)
                    msg = "lemke_howson(%s=%s(%d)) -> %s, with a Python int -> ok" % (arg, T.__name__, base[arg], got if isinstance(got, str) else "different result")
                    # (np.uint64 init_pivot used to end in a Numba TypingError; fixed in /repo, kept as a
                    #  regression case: any accepted integer type must give the answer of the Python int)
                    ctx.spec_fail(key, msg, dict(rep0, **{k: "%s(%s)" % (type(v).__name__, v) for k, v in kw.items()}))
        # optional arguments: omitted / None / positional / keyword; full_output forms
        ip = base["init_pivot"]
        alts = [lemke_howson(canon, ip), lemke_howson(canon, init_pivot=ip), lemke_howson(canon, ip, 10 ** 6),
                lemke_howson(canon, ip, 10 ** 6, None), lemke_howson(canon, ip, capping=None),
                lemke_howson(canon, ip, 10 ** 6, None, False), lemke_howson(canon, ip, full_output=False),
                lemke_howson(canon, ip, full_output=0), lemke_howson(canon, ip, full_output=np.bool_(False)),
                lemke_howson(canon, ip, full_output=True)[0], lemke_howson(canon, ip, full_output=1)[0],
                lemke_howson(canon, ip, 10 ** 6, None, True)[0], lemke_howson(canon, ip, full_output=np.bool_(True))[0]]
        if len(set((bits(a[0]), bits(a[1])) for a in alts)) != 1:
            ctx.spec_fail("argument_form_lh_optional", "lemke_howson: omitted / None / positional / keyword forms of the "
                          "optional arguments disagree", rep0)
        if ip == 0:
            if (bits(lemke_howson(canon)[0]), bits(lemke_howson(canon)[1])) != (bits(alts[0][0]), bits(alts[0][1])):
                ctx.spec_fail("argument_form_lh_optional", "lemke_howson(g) differs from lemke_howson(g, 0)", rep0)
        # tol of pure_nash_brute
        p0 = pure_nash_brute(canon, tol=0.0)
        for t in (0, 0.0, np.float32(0), np.float64(0), np.array(0.0), np.int8(0), np.uint8(0), False):
            if pure_nash_brute(canon, tol=t) != p0 or pure_nash_brute(canon, t) != p0:
                ctx.spec_fail("argument_form_pure_nash_tol", "pure_nash_brute(tol=%r) differs from tol=0.0" % (t,), rep0)
        pd = pure_nash_brute(canon)
        for t in (None, 1e-8, np.float64(1e-8), np.array(1e-8)):
            if pure_nash_brute(canon, tol=t) != pd or pure_nash_brute(canon, t) != pd:
                ctx.spec_fail("argument_form_pure_nash_tol", "pure_nash_brute(tol=%r) differs from the default" % (t,), rep0)
        # exact check with tol = 0 and a tiny tol
        for t in (0.0, 5e-324, 1.0):
            got = set(tuple(int(v) for v in a) for a in pure_nash_brute(canon, tol=t))
            for i in range(m):
                for j in range(n):
                    gain = max(max(FA[k][j] for k in range(m)) - FA[i][j], max(FB[k][i] for k in range(n)) - FB[j][i])
                    if (gain <= Fraction(t)) != ((i, j) in got):     # integer payoffs: no rounding involved
                        ctx.spec_fail("pure_nash_tol_boundary", "pure_nash_brute(tol=%r) wrong at %s (gain %s)" % (t, (i, j), gain), rep0)
        # explicit zero tolerance on payoffs that differ by less than the default tolerance
        eps = 2.0 ** -40
        At = A.copy(); At[0, 0] = At[m - 1, 0] + (eps if m > 1 else 0.0)
        Bt = B.copy(); Bt[0, 0] = Bt[n - 1, 0] - (eps if n > 1 else 0.0)
        gt = mk_game(At, Bt)
        FAt, FBt = FM(At), FM(Bt)
        for t in (0, 0.0, np.float64(0), None, 1e-8, 2.0 ** -41, 2.0 ** -39):
            tv = Fraction(1e-8 if t is None else float(t))
            got = set(tuple(int(v) for v in a) for a in pure_nash_brute(gt, tol=t))
            for i in range(m):
                for j in range(n):
                    gain = max(max(FAt[k][j] for k in range(m)) - FAt[i][j], max(FBt[k][i] for k in range(n)) - FBt[j][i])
                    if abs(gain - tv) > Fraction(1, 10 ** 15) or tv == 0:
                        if (gain <= tv) != ((i, j) in got):
                            ctx.spec_fail("pure_nash_tol_small_gap", "pure_nash_brute(tol=%r) wrong at %s: gain %.3e"
                                          % (t, (i, j), float(gain)), {"A": At.tolist(), "B": Bt.tolist(), "tol": repr(t)})
        # vertex_enumeration's optional argument
        if m >= 2 and n >= 2 and want.get("ve") != "QhullError":
            for call in (lambda: vertex_enumeration(canon, None), lambda: vertex_enumeration(canon, qhull_options=None)):
                if [(bits(x), bits(y)) for x, y in call()] != want["ve"]:
                    ctx.spec_fail("argument_form_ve_optional", "vertex_enumeration: omitted / None / keyword forms of "
                                  "qhull_options disagree", rep0)
        ctx.count("forms:base-games")


# ----------------------------------------------------------------------------

def run(ctx):
    cases = []
    ctx.rule = ("bimatrix games m,n<=5 of kinds int/dup (degenerate: ties, duplicated and constant rows, negative), "
                "dyadic, generic/zerosum/coord (Gaussian or uniform reals); LH: every game x all m+n pivots x capping "
                "in {None,1,2,10} plus small max_iter; support/vertex enumeration once per game, cross-checked on the "
                "generic kinds; N-player games N<=4 for pure equilibria. Non-trivial: LH paths with >= 3 pivots, "
                "enumeration on games with min(m,n)>=2; distinct by request line")
    ctx.assumptions += [
        "support_enumeration: LAPACK gesv is replaced by exact Gauss-Jordan in the model; on support pairs whose exact "
        "system is singular / has a zero weight / has an exact payoff tie the code's yield is decided by rounding and "
        "is compared only through the exact Nash oracle (counted as fragile pairs)",
        "vertex_enumeration: Qhull's (equations, simplices) are inputs of the model",
        "rounding envelope 1e-9 on probabilities between the exact model and the code's doubles",
        "the model's solvers are pure functions of the payoff matrices; that the code's are too (no state kept on "
        "the game object across calls or payoff changes) is checked by the solve/mutate/solve histories"]

    # corpus first: fixed games that once needed attention (degenerate read-outs, many ties)
    import json, os
    cpath = os.path.join(ctx.corpus_dir, "c05_games.json")
    for ent in json.load(open(cpath)):
        A, B = np.array(ent["A"], dtype=float), np.array(ent["B"], dtype=float)
        m, n = A.shape
        ctx.count("game:corpus")
        lh_cases(ctx, A, B, "int", cases, range(m + n), (None, 1, 2, 10), (MAXIT,))
        lh_cases(ctx, A, B, "int", cases, range(m + n), (None, 2), (1, 3))
        se_run(ctx, A, B, "int", cases)
        if m >= 2 and n >= 2:
            ve_run(ctx, A, B, "int", cases)

    shapes_small = [(m, n) for m in range(1, 4) for n in range(1, 4)]
    shapes_big = [(m, n) for m in range(1, 6) for n in range(1, 6) if max(m, n) >= 4]
    plan = []
    reps_small, reps_big = ctx.n(4, 16), ctx.n(1, 6)
    for kind in ("int", "dup", "dyadic", "generic", "zerosum", "coord"):
        for (m, n) in shapes_small:
            plan += [(m, n, kind)] * reps_small
        bigs = shapes_big if ctx.thorough else ctx.rng.sample(shapes_big, 8)
        for (m, n) in bigs:
            plan += [(m, n, kind)] * reps_big

    for (m, n, kind) in plan:
        A, B = gen_game(ctx, m, n, kind)
        ctx.count("game:" + kind)
        ctx.count("game:%s" % ("square" if m == n else "m!=n"))
        # Lemke-Howson: all pivots x cappings; a few short max_iter to reach the non-converged exits
        # (max_iter 500: far above any path length here, and a code change that makes the path
        #  cycle shows up as a disagreement in bounded time)
        lh_cases(ctx, A, B, kind, cases, range(m + n), (None, 1, 2, 10), (500,))
        lh_cases(ctx, A, B, kind, cases, [ctx.rng.randrange(m + n)], (None, 1, 2), (1, 2, 3, 5))
        se = se_run(ctx, A, B, kind, cases)
        if m >= 2 and n >= 2:
            ve = ve_run(ctx, A, B, kind, cases)
            if ve is not None and kind in ("generic", "zerosum", "coord"):
                cross_check(ctx, A, B, se, ve)

    indiff_cases(ctx, cases, ctx.n(600, 6000))
    brp_args_cases(ctx, cases)
    degenerate_run(ctx, cases, ctx.n(300, 3000))

    # solve / mutate / solve histories on one game object
    history_run(ctx, ctx.n(30, 300))
    interleave_run(ctx, ctx.n(6, 60))
    forms_run(ctx)

    # pure equilibria
    for _ in range(ctx.n(150, 3000)):
        N = ctx.rng.randint(1, 4)
        nums = [ctx.rng.randint(1, 3) for _ in range(N)]
        kind = ctx.rng.choice(["int", "int", "half", "real"])
        tol = ctx.rng.choice([None, 0.0, 0.5, 1.0]) if kind != "real" else ctx.rng.choice([None, 0.0, 0.25])
        pn_run(ctx, cases, N, nums, kind, tol)

    ctx.run_cases(cases)


# ----------------------------------------------------------------------------
# ./check C05 --replay <file>: re-run a recorded failing input against the real code

def replay(data):
    """prints what the real code returns on the recorded input and the exact oracle's verdict;
    exit status 1 when the violation reproduces, 0 otherwise"""
    from quantecon.game_theory import (NormalFormGame, Player, lemke_howson, support_enumeration,
                                       vertex_enumeration, pure_nash_brute)
    rep = data.get("replay", data)
    bad = 0
    if "A" in rep:
        A, B = np.array(rep["A"], dtype=float), np.array(rep["B"], dtype=float)
        m, n = A.shape
        g = mk_game(A, B)
        FA, FB = FM(A), FM(B)
        if "init_pivot" in rep:
            NE, res = lemke_howson(g, init_pivot=rep["init_pivot"], max_iter=rep.get("max_iter", MAXIT),
                                   capping=rep.get("capping"), full_output=True)
            why = nash_defect(FA, FB, F(NE[0]), F(NE[1])) if res.converged else None
            print("lemke_howson ->", NE, "converged", res.converged, "num_iter", res.num_iter, "| oracle:", why or "ok")
            bad += bool(why)
        for name, fn in (("support_enumeration", support_enumeration), ("vertex_enumeration", vertex_enumeration)):
            if name == "vertex_enumeration" and min(m, n) < 2:
                continue
            out = fn(g)
            for x, y in out:
                why = nash_defect(FA, FB, F(x), F(y))
                print(name, "->", x, y, "| oracle:", why or "ok")
                bad += bool(why)
            if min(m, n) >= 1 and m * n <= 25 and data.get("key", "").split("_")[-1] in (
                    "incomplete", "count", "missing", "parity", "twice"):
                ref = all_equilibria_exact(FA, FB)
                print(name, "returned", len(out), "profiles; exact enumeration over equal-size supports finds", len(ref))
                bad += len(out) != len(ref)
    elif "nums" in rep:
        arrs = [np.array(a, dtype=float) for a in rep["pay"]]
        g = NormalFormGame(tuple(Player(a) for a in arrs))
        got = pure_nash_brute(g, tol=rep.get("tol"))
        print("pure_nash_brute ->", got, "(recorded: %s)" % rep.get("got"))
        print(data.get("what"))
        bad += 1
    else:
        print(json_dump(data))
    return 1 if bad else 0


def json_dump(d):
    import json
    return json.dumps(d, indent=1, default=str)
